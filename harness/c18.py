"""C18 - multiple-model estimation keeps valid probabilities and moment-matched output."""
from __future__ import annotations

import logging

import numpy as np
import z3

from symx.core import SBool, SInt, SReal, assume, cur, explore, marray, mfloat, mval, real, reals, rv
from symx.runner import Ob
from symx.stubs import shadow, sym_zeros

ID = "C18"
TECHNIQUE = ("the real StaticMultipleModel.update / GeneralizedPseudoBayesian1.update / AdaptiveFilter.prune / _compileUpdateStep / _resumeSequentialFiltering / eciStack "
             "are executed on duck-typed member filters with symbolic estimates, covariances, NIS values, likelihood factors (exp/det results are solver variables, 0 = underflow "
             "allowed), prior weights and thresholds; numpy's argwhere/delete/sum fork and run on proxies; on each path z3 proves: every divisor is non-zero, weights are "
             ">= 0 and sum to one, Bayes' rule, moment matching, closure hands back the surviving model")
FLOAT_SEMANTICS = "Real-ideal; a non-zero divisor is a proof obligation (0/0 = NaN in doubles)"
ENCODED = ["resonaate.estimation.adaptive.smm:StaticMultipleModel.update", "resonaate.estimation.adaptive.smm:StaticMultipleModel._prunedToSingleModel",
           "resonaate.estimation.adaptive.smm:StaticMultipleModel._convergedToSingleModel", "resonaate.estimation.adaptive.gpb1:GeneralizedPseudoBayesian1.update",
           "resonaate.estimation.adaptive.gpb1:GeneralizedPseudoBayesian1._constructMixMatrix", "resonaate.estimation.adaptive.adaptive_filter:AdaptiveFilter.prune",
           "resonaate.estimation.adaptive.adaptive_filter:AdaptiveFilter._compileUpdateStep", "resonaate.estimation.adaptive.adaptive_filter:AdaptiveFilter._compileForecastStep",
           "resonaate.estimation.adaptive.adaptive_filter:AdaptiveFilter._compilePredictStep", "resonaate.estimation.adaptive.adaptive_filter:AdaptiveFilter._resumeSequentialFiltering",
           "resonaate.estimation.adaptive.mmae_stacking_utils:eciStack"]
BOUNDS = {"models": "2..3 (quick), 2..4 (thorough)", "state dimension": "2", "measurement dimension": "1", "steps": "one update followed by its pruning/convergence logic",
          "thresholds": "prune_threshold, prune_percentage symbolic in (0,1)", "likelihoods": "any values >= 0 including exact 0 (underflow)"}
OUTSIDE = ["model generation (initialize, Lambert targeting)", "5..30 models", "value of exp/det (cut to symbols; their arguments are checked)", "chi-square gate value (uninterpreted)"]
ASSUMPTIONS = ["exp(-0.5 nis_i) -> e_i >= 0 (0 allowed), det(S_i) -> d_i > 0, chi2.isf uninterpreted", "member filters are duck-typed objects with symbolic fields",
               "prior weights are >= 0 and sum to one (the invariant itself: one inductive step from an arbitrary valid state)"]
LEVEL_TEXT = ("One inductive step of the multiple-model logic from an arbitrary valid weight vector, for every likelihood vector (zeros included), threshold pair and small "
              "model count: the probability invariant, Bayes' rule and moment matching are proved by z3 on every path; an unreachable-by-sampling corner (all weights below "
              "the pruning threshold with a zero first weight) is a satisfiable query.")
LEVEL_NOTE = "Model count and dimensions bounded; exp/det/chi2 cut to symbols; one update step (induction over steps is by the assumed invariant)."

ISF = z3.Function("chi2_isf", z3.RealSort(), z3.RealSort(), z3.RealSort())


def _tr(x):
    if isinstance(x, SReal):
        return x.t
    if isinstance(x, SInt):
        return z3.ToReal(x.t)
    if isinstance(x, SBool):
        return z3.If(x.t, z3.RealVal(1), z3.RealVal(0))
    return rv(x)


TOL = rv(1e-9)


def _approx(a, b):
    """equality up to 1e-9: the code mixes in Python-float constants (1/3, 1/(N-1+mix_ratio)) whose exact rational value is off by ~1e-16"""
    return z3.And(a - b <= TOL, b - a <= TOL)


class Chi2Stub:
    def isf(self, a, d):
        return SReal(ISF(_tr(a), _tr(d)))


class Model:
    def __init__(self, i, n=2, m=1):
        self.i = i
        self.pred_x, self.est_x = reals(f"px{i}", n), reals(f"ex{i}", n)
        self.Lp, self.Le = reals(f"Lp{i}", n, n), reals(f"Le{i}", n, n)
        self.pred_p, self.est_p = self.Lp.dot(self.Lp.T), self.Le.dot(self.Le.T)
        self.nis = real(f"nis{i}")
        assume(self.nis.t >= 0)
        self.innov_cvr = reals(f"S{i}", m, m)
        self.cross_cvr, self.kalman_gain = reals(f"C{i}", n, m), reals(f"K{i}", n, m)
        self.mean_pred_y, self.innovation, self.true_y = reals(f"my{i}", m), reals(f"inn{i}", m), reals("y", m)
        self.is_angular, self.r_matrix = np.array([False] * m), reals("R", m, m)
        self.time, self.source = 300.0, "Observation"

    def predict(self, *a, **k):
        pass

    def forecast(self, *a, **k):
        pass

    def update(self, *a, **k):
        pass


class Captured:
    """Stands for the sequential filter class handed back on closure."""

    def __init__(self, **kw):
        self.kw = kw


def _mk(kind, N):
    from resonaate.estimation.adaptive import adaptive_filter as AF
    from resonaate.estimation.adaptive import gpb1 as G
    from resonaate.estimation.adaptive import smm as S
    from resonaate.estimation.adaptive.mmae_stacking_utils import eciStack
    from resonaate.estimation.sequential_filter import FilterFlag

    cls = S.StaticMultipleModel if kind == "smm" else G.GeneralizedPseudoBayesian1
    f = object.__new__(cls)
    f.logger = logging.getLogger("symx")
    f.target_id, f.time, f.x_dim = 7, 300.0, 2
    f.models = [Model(i) for i in range(N)]
    f.num_models = N
    w = reals("w", N)
    for x in w:
        assume(x.t >= 0)
    assume(z3.Sum([x.t for x in w]) == 1)
    f.model_weights = w
    f.model_likelihoods = np.array([SReal(1)] * N, dtype=object)
    mu = reals("mu", N)
    for x in mu:
        assume(x.t >= 0)
    assume(z3.Sum([x.t for x in mu]) == 1)
    f.mode_probabilities = mu
    f.prune_threshold, f.prune_percentage = real("thr"), real("pct")
    assume(f.prune_threshold.t > 0, f.prune_threshold.t < 1, f.prune_percentage.t > 0, f.prune_percentage.t < 1)
    f.stacking_method = eciStack
    f._flags = FilterFlag.ADAPTIVE_ESTIMATION_START
    f._filter_class = Captured
    f._converged_filter = None

    class Orig:
        extra_parameters = {}

    f._original_filter = Orig()
    f.dynamics = f.q_matrix = f.maneuver_detection = None
    f.maneuver_metric = None
    f.est_x, f.pred_x = reals("fx", 2), reals("fpx", 2)
    f.true_y = reals("y", 1)
    f.nis = real("fnis")
    f.mix_ratio = 1.5
    return f


def _run(kind, N):
    from resonaate.estimation.adaptive import adaptive_filter as AF
    from resonaate.estimation.adaptive import gpb1 as G
    from resonaate.estimation.adaptive import smm as S
    from resonaate.physics import statistics as ST

    f = _mk(kind, N)
    w0 = f.model_weights.copy()
    mu0 = f.mode_probabilities.copy()
    models0 = list(f.models)
    es, ds, calls = [], [], {"exp": [], "det": []}

    def exp_stub(x):
        e = real(f"e{len(es)}")
        assume(e.t >= 0)
        es.append(e)
        calls["exp"].append(x)
        return e

    def det_stub(M):
        d = real(f"d{len(ds)}")
        assume(d.t > 0)
        ds.append(d)
        calls["det"].append(M)
        return d

    snaps = []
    real_compile = type(f)._compileUpdateStep

    def snap_compile(obs):
        snaps.append({"w": f.model_weights.copy(), "n": len(f.models), "mu": np.array(f.mode_probabilities, dtype=object).copy()})
        real_compile(f, obs)
        snaps[-1].update(est_x=np.array(f.est_x, dtype=object).copy(), est_p=np.array(f.est_p, dtype=object).copy(), models=list(f.models),
                         pred_x=np.array(f.pred_x, dtype=object).copy())

    f._compileUpdateStep = snap_compile
    mod = S if kind == "smm" else G
    with shadow(mod, exp=exp_stub, det=det_stub), shadow(AF, zeros=sym_zeros), shadow(ST, chi2=Chi2Stub()), shadow(G, zeros=sym_zeros, ones=_ones):
        f.update(["obs"])
    return f, w0, mu0, models0, es, ds, calls, snaps


def _ones(shape, dtype=None):
    a = np.empty(shape, dtype=object)
    a.fill(SReal(1))
    return a


def replay_smm(d):
    return replay_mm(d, "smm")


def replay_gpb1(d):
    return replay_mm(d, "gpb1")


def replay_mm(d, kind):
    """Numeric replay of one update (likelihoods, Bayes step, pruning, closure) on the real class."""
    import warnings

    from resonaate.estimation.adaptive import adaptive_filter as AF
    from resonaate.estimation.adaptive.gpb1 import GeneralizedPseudoBayesian1
    from resonaate.estimation.adaptive.smm import StaticMultipleModel
    from resonaate.estimation.adaptive.mmae_stacking_utils import eciStack
    from resonaate.estimation.sequential_filter import FilterFlag
    from resonaate.physics import statistics as ST

    StaticMultipleModel = StaticMultipleModel if kind == "smm" else GeneralizedPseudoBayesian1  # noqa: N806
    N = len(d["w"])

    class M:
        def __init__(self, i):
            self.pred_x = self.est_x = np.array([float(i), 1.0])
            self.pred_p = self.est_p = np.eye(2)
            self.nis = d["nis"][i]
            self.innov_cvr = np.array([[d["det"][i]]])
            self.cross_cvr = self.kalman_gain = np.ones((2, 1))
            self.mean_pred_y = self.innovation = self.true_y = np.array([0.5])
            self.is_angular, self.r_matrix = np.array([False]), np.eye(1)
            self.time, self.source = 300.0, "Observation"

        def update(self, obs):
            pass

    f = object.__new__(StaticMultipleModel)
    f.logger = logging.getLogger("symx")
    f.target_id, f.time, f.x_dim = 7, 300.0, 2
    f.models = [M(i) for i in range(N)]
    f.num_models = N
    f.model_weights = np.array(d["w"], dtype=float)
    f.model_likelihoods = np.ones(N)
    f.mode_probabilities = np.array(d["mu"], dtype=float) if d.get("mu") else np.ones(N) / N
    f.mix_ratio = 1.5
    f._converged_filter = None
    f.prune_threshold, f.prune_percentage = d["thr"], d["pct"]
    f.stacking_method = eciStack
    f._flags = FilterFlag.ADAPTIVE_ESTIMATION_START
    f._filter_class = Captured

    class Orig:
        extra_parameters = {}

    f._original_filter = Orig()
    f.dynamics = f.q_matrix = f.maneuver_detection = None
    f.maneuver_metric = None
    f.est_x = f.pred_x = np.zeros(2)
    f.true_y, f.nis = np.array([0.5]), 1.0
    class Gate:  # the chi-square gate of the convergence test: open or closed as in the counterexample
        @staticmethod
        def isf(a, dof):
            return 1e300 if d.get("gate_open", True) else -1.0

    with warnings.catch_warnings():
        warnings.simplefilter("ignore")
        with np.errstate(all="ignore"), shadow(ST, chi2=Gate):
            f.update(["obs"])
    w = np.asarray(f.model_weights, dtype=float)
    bad = (not np.all(np.isfinite(w))) or np.any(w < 0) or abs(w.sum() - 1) > 1e-9 or len(f.models) < 1 or len(w) != len(f.models)
    bad = bad or not np.all(np.isfinite(np.asarray(f.est_x, dtype=float)))
    detail = {"weights_after": w.tolist(), "models_left": len(f.models), "est_x": np.asarray(f.est_x, dtype=float).tolist()}
    if f._converged_filter is not None:
        kw = f._converged_filter.kw
        detail["closed_with_models"] = len(f.models)
        single = len(f.models) == 1 and np.allclose(np.asarray(kw["est_x"], dtype=float), f.models[0].est_x) and np.allclose(np.asarray(kw["est_p"], dtype=float), f.models[0].est_p)
        if kind == "smm" and d["pct"] > 0.5 and not single:
            bad = True
            detail["closure"] = "the filter handed back is not the single surviving model"
    return bool(bad), detail


def o_mm(rep, kind, N, part=0, parts=1):
    """part/parts: the paths are shared out over `parts` obligations (each explores all paths - cheap - and proves its share)."""
    res = explore(lambda: _run(kind, N), max_paths=3000, max_depth=200, recip=False)
    rep.note(f"{kind} N={N}: paths={len(res)} (this obligation proves paths with index % {parts} == {part})")
    n = 0
    closed = 0
    for r in res:
        if r.exc is not None:
            rep.error("exception", f"{r.exc!r}")
            continue
        f, w0, mu0, models0, es, ds, calls, snaps = r.out
        n += 1
        if f._converged_filter is not None:
            closed += 1
        if (n - 1) % parts != part:
            continue
        tag = f"{kind}[N={N}]#{n}"

        def inputs(m, es=es, ds=ds):
            # likelihood e_i/sqrt(2 pi d_i): realise through nis and a 1x1 innovation covariance
            import math

            e = [mfloat(m, x.t) for x in es]
            dd = [mfloat(m, x.t) for x in ds]
            nis = [(-2 * math.log(x) if x > 0 else 1e6) for x in e]
            return {"w": [mfloat(m, z3.Real(f"w_{i}")) for i in range(N)], "mu": [mfloat(m, z3.Real(f"mu_{i}")) for i in range(N)], "nis": nis, "det": dd,
                    "thr": mfloat(m, z3.Real("thr")), "pct": mfloat(m, z3.Real("pct")), "gate_open": True}

        # (0) every divisor is non-zero / every sqrt argument non-negative when it is reached
        for k, (c, hyp) in enumerate(r.path.domain_obligations()):
            rep.prove(f"{tag}-finite{k}", c, hyp, inputs=inputs, replay=replay_smm if kind == "smm" else replay_gpb1,
                      sample="divisor != 0 (weights stay finite) at the point where the division happens")
        cons = r.constraints
        # (1) invariant after the whole update (incl. pruning)
        wf = f.model_weights
        goals = [z3.And(*[_tr(x) >= 0 for x in wf]), _approx(z3.Sum([_tr(x) for x in wf]), z3.RealVal(1)), z3.BoolVal(len(f.models) >= 1),
                 z3.BoolVal(len(wf) == len(f.models) == len(f.model_likelihoods) == len(f.mode_probabilities) == f.num_models)]
        rep.prove(f"{tag}-invariant", z3.And(*goals), cons, inputs=inputs, replay=replay_smm if kind == "smm" else replay_gpb1,
                  sample="after update+prune: weights >= 0, sum to one, >= 1 model, all per-model arrays of equal length")
        # (2) Bayes' rule at the first compile (before pruning)
        s0 = snaps[0]
        like = [es[i].t / _sq(r.path, i) for i in range(N)]
        if kind == "smm":
            tot = z3.Sum([w0[i].t * like[i] for i in range(N)])
            bayes = z3.And(*[_tr(s0["w"][i]) * tot == w0[i].t * like[i] for i in range(N)])
            uniform = z3.And(*[_approx(_tr(s0["w"][i]) * N, z3.RealVal(1)) for i in range(N)])
            tiny = z3.And(tot < rv(1e-15), tot > -rv(1e-15))
            rep.prove(f"{tag}-bayes", z3.If(tiny, uniform, bayes), cons, sample="SMM: w' = w*l / sum(w*l), uniform reset when the mass underflows")
        else:
            c = z3.Sum([mu0[i].t * like[i] for i in range(N)])
            tiny = z3.And(c < rv(1e-15), c > -rv(1e-15))
            bayes = z3.And(*[_tr(s0["w"][i]) * c == mu0[i].t * like[i] for i in range(N)])
            reset = z3.And(*[_tr(s0["w"][i]) == mu0[i].t for i in range(N)])
            rep.prove(f"{tag}-bayes", z3.If(tiny, reset, bayes), cons, sample="GPB1: w' = l*mu / c (likelihoods reset to one when c underflows)")
            mu1 = s0["mu"]
            rep.prove(f"{tag}-mode-prob", z3.And(_approx(z3.Sum([_tr(x) for x in mu1]), z3.RealVal(1)), *[_tr(x) >= 0 for x in mu1]), cons, sample="GPB1: mixed mode probabilities stay a distribution")
        # likelihood arguments: exp(-0.5*nis_i) and det(innov_cvr_i), in model order
        ok_args = all(calls["det"][i] is models0[i].innov_cvr for i in range(N)) and len(calls["exp"]) == N
        rep.prove(f"{tag}-likelihood-args", z3.And(z3.BoolVal(ok_args), *[_tr(calls["exp"][i]) == rv(-0.5) * models0[i].nis.t for i in range(N)]), cons,
                  sample="likelihood of model i uses exp(-nis_i/2) and det(S_i)")
        # (3) moment matching at every compile
        for k, s in enumerate(snaps):
            ms, w = s["models"], None
            w = f.model_weights if k == len(snaps) - 1 else s["w"]
            if len(ms) != len(w):
                w = s["w"]
            ex = [z3.Sum([_tr(w[i]) * ms[i].est_x[c].t for i in range(len(ms))]) for c in range(2)]
            g = [_tr(s["est_x"][c]) == ex[c] for c in range(2)]
            for a in range(2):
                for b in range(2):
                    mix = z3.Sum([_tr(w[i]) * (_tr(ms[i].est_p[a, b]) + (ms[i].est_x[a].t - ex[a]) * (ms[i].est_x[b].t - ex[b])) for i in range(len(ms))])
                    g.append(_tr(s["est_p"][a, b]) == mix)
                    g.append(_tr(s["est_p"][a, b]) == _tr(s["est_p"][b, a]))
            rep.prove(f"{tag}-moments{k}", z3.And(*g), cons, timeout_ms=60000, sample="est_x = sum w_i x_i; est_p = sum w_i (P_i + d d^T), symmetric")
        # (4) closure hands back the surviving model
        if f._converged_filter is not None:
            kw = f._converged_filter.kw
            g = [z3.BoolVal(len(f.models) >= 1)]
            # with a convergence percentage above one half at most one model can have reached it: exactly that model survives
            # (static multiple model only: GPB1 merges its models every step and hands back the merged estimate by design)
            if kind == "smm":
                g.append(z3.Or(z3.Real("pct") <= rv(0.5), z3.BoolVal(len(f.models) == 1)))
            if len(f.models) == 1:
                g += [_tr(kw["est_x"][c]) == f.models[0].est_x[c].t for c in range(2)]
                g += [_tr(kw["est_p"][a, b]) == _tr(f.models[0].est_p[a, b]) for a in range(2) for b in range(2)]
            from resonaate.estimation.sequential_filter import FilterFlag

            g.append(z3.BoolVal(FilterFlag.ADAPTIVE_ESTIMATION_CLOSE in f.flags and FilterFlag.ADAPTIVE_ESTIMATION_START not in f.flags))
            rep.prove(f"{tag}-closure", z3.And(*g), cons, timeout_ms=60000, inputs=inputs, replay=replay_smm if kind == "smm" else replay_gpb1, sample="on closure the filter handed back carries the surviving model's estimate; flags START->CLOSE")
    if n == 0:
        rep.error("reach", "no path")
    rep.note(f"paths with closure: {closed}")
    if closed == 0:
        rep.error("reach", "closure never reached")


def _sq(path, i):
    """the sqrt variable of the i-th likelihood denominator"""
    sq = path.apps.get("sqrt", [])
    return sq[i][0]


REPLAYS = {}


def obligations(tier):
    obs = []
    for kind in ("smm", "gpb1"):
        for N in ((2, 3) if tier == "quick" else (2, 3, 4)):
            parts = 6 if (kind == "smm" and N >= 3) else (3 if N >= 4 else 1)
            for part in range(parts):
                name = f"{kind}-N{N}" + (f"-p{part}" if parts > 1 else "")
                obs.append(Ob(name, (lambda k, n, p, ps: lambda rep: o_mm(rep, k, n, p, ps))(kind, N, part, parts), f"{kind} update/prune/closure with {N} models"
                              + (f" (paths {part} mod {parts})" if parts > 1 else ""), 1500))
                REPLAYS[name] = replay_smm if kind == "smm" else replay_gpb1
    return obs
